"""Shared machinery of all checks: paths, evidence, known findings, exit codes (DESIGN.md §4)."""
import json, os, sys, time, hashlib, subprocess

VERIF = os.path.dirname(os.path.dirname(os.path.abspath(__file__)))
REPO = os.environ.get('VERIF_REPO', '/repo')
BUILD = os.path.join(VERIF, '.build') if REPO == '/repo' else os.path.join(VERIF, '.build', 'alt-' + hashlib.sha1(REPO.encode()).hexdigest()[:8])

EVID = os.path.join(VERIF, 'evidence') if REPO == '/repo' else os.path.join(BUILD, 'evidence')
os.makedirs(BUILD, exist_ok=True)
os.makedirs(EVID, exist_ok=True)

EXIT_OK, EXIT_VIOLATION, EXIT_INCONCLUSIVE = 0, 1, 2


class Inconclusive(Exception):
    """machinery could not decide (unknown callee, solver unknown, timeout, OOM, build failure)."""


def env_offline(extra=None):
    e = dict(os.environ)
    e['CARGO_NET_OFFLINE'] = 'true'
    e.pop('RUSTFLAGS', None)
    if extra:
        e.update(extra)
    return e


def seed():
    try:
        return int(os.environ.get('VERIF_SEED', '0'))
    except ValueError:
        return 0


def sha_tree(paths, exts=('.rs', '.toml', '.json', '.lock')):
    h = hashlib.sha256()
    for root in paths:
        if os.path.isfile(root):
            h.update(root.encode()); h.update(open(root, 'rb').read()); continue
        for d, dn, fn in sorted(os.walk(root)):
            dn[:] = sorted(x for x in dn if x not in ('target', '.git'))
            for f in sorted(fn):
                if f.endswith(exts):
                    p = os.path.join(d, f)
                    h.update(p.encode()); h.update(open(p, 'rb').read())
    return h.hexdigest()


def known_findings():
    p = os.path.join(VERIF, 'known_findings.json')
    if not os.path.exists(p):
        return []
    return json.load(open(p))['findings']


class Report:
    """Collects what one check run covered and turns it into evidence + exit status."""

    def __init__(self, pid, tier):
        self.pid, self.tier, self.t0 = pid, tier, time.time()
        self.queries = []          # dicts: {name, engine, verdict, time_s, ...}
        self.samples = []
        self.states = 0            # feasible symbolic paths explored (M) / harnesses (K)
        self.transitions = 0       # MIR basic-block transitions (M) + CBMC program steps if known (K)
        self.replayed = 0          # solver models replayed natively
        self.violations = []       # (key, what, replay_path)
        self.known = []            # (key, what)
        self.inconclusive = []     # reasons
        self.functions_encoded = []
        self.models_used = []
        self.assumptions = []
        self.bounds = {}
        self.outside = []
        self.extra = {}
        self.solver_time = 0.0
        self.kani = []

    # ---- recording
    def query(self, name, verdict, time_s, engine='M', **kw):
        q = dict(name=name, engine=engine, verdict=verdict, time_s=round(time_s, 3)); q.update(kw)
        self.queries.append(q)
        if len(self.samples) < 40:
            self.samples.append(q)
        return q

    def violation(self, key, what, replay_obj):
        """A reproduced violation. key identifies the failing input class structurally."""
        for kf in known_findings():
            if kf.get('property') == self.pid and kf.get('status') == 'open' and kf.get('key') == key:
                if not any(k == key for k, _ in self.known):
                    self.known.append((key, kf.get('what', what)))
                return
        if any(k == key for k, _, _ in self.violations):
            return          # one report per structural key
        os.makedirs(os.path.join(EVID, 'replay'), exist_ok=True)
        path = os.path.join(EVID, 'replay', f'{getattr(self, "vprefix", self.pid)}-{len(self.violations)}.json')
        json.dump(dict(property=self.pid, key=key, what=what, witness=replay_obj), open(path, 'w'), indent=1, default=str)
        self.violations.append((key, what, path))

    def structural(self, key, what, witness, battery):
        """A deviation seen on the executed MIR that is not itself an input/output counterexample (an unexpected event shape, an
        abnormal outcome, a different call target): it becomes a violation only if the native twin battery of the check shows the
        property broken on the real build; otherwise the structural argument of the check no longer applies -> inconclusive."""
        try:
            fails = battery()
        except Exception as e:          # the battery itself could not run
            fails = None
            self.inconc(f'{what} (native battery could not run: {e!r:.200})')
            return
        self.replayed += 1
        if fails:
            self.violation(key, f'{what}; native twins: {"; ".join(str(f)[:200] for f in fails[:3])}', dict(witness or {}, native_failures=[str(f)[:300] for f in fails[:6]]))
        else:
            self.inconc(f'{what} -- not confirmed by the native twins of this check (its structural argument no longer applies to the current code)')

    def inconc(self, why):
        self.inconclusive.append(why)

    def part(self, label):
        """context manager isolating one independent part of a check: a machinery failure inside it is recorded as inconclusive and
        the other parts (and the native twins) still run, so that a violation they find is still reported"""
        rep = self

        class _Part:
            def __enter__(self_):
                return self_

            def __exit__(self_, et, ev, tb):
                if et is None:
                    return False
                if issubclass(et, Inconclusive):
                    rep.inconc(f'{label}: {ev}')
                    return True
                if issubclass(et, Exception):
                    import traceback
                    traceback.print_exception(et, ev, tb)
                    rep.inconc(f'{label}: machinery error: {ev!r}')
                    return True
                return False
        return _Part()

    # ---- finish
    def finish(self):
        wall = time.time() - self.t0
        nq = len(self.queries)
        verd = {}
        for q in self.queries:
            verd[q['verdict']] = verd.get(q['verdict'], 0) + 1
        cov = dict(
            states=max(self.states, 1), transitions=max(self.transitions, 1),
            traces_validated_against_impl=self.replayed,
            samples=self.samples[:40] or [{'note': 'no query ran'}],
            evaluations=max(nq, 1),
            distinct_nontrivial=max(len({q['name'] for q in self.queries}), 0),
            rule='one evaluation = one solver query (path post-condition, feasibility twin, or Kani harness); distinct = distinct query names',
            functions_encoded=sorted(set(self.functions_encoded)),
            models_used=sorted(set(self.models_used)),
            bounds=self.bounds, queries=nq, verdicts=verd,
            solver_time_s=round(self.solver_time, 2),
            kani_harnesses=self.kani,
            outside_the_bound=self.outside,
            known_findings_reported=[k for k, _ in self.known],
            inconclusive=self.inconclusive,
            exhaustive=False,
        )
        cov.update(self.extra)
        ev = dict(property_id=self.pid, tier=self.tier, seed=seed(), level='model_checking',
                  coverage=cov, assumptions=self.assumptions, wall_s=round(wall, 2),
                  violations=len(self.violations))
        json.dump(ev, open(os.path.join(EVID, f'{self.pid}.json'), 'w'), indent=1, default=str)
        for key, what in self.known:
            print(f'KNOWN-FINDING: property={self.pid} {what} [{key}]')
        if self.violations:
            for key, what, path in self.violations:
                print(f'VIOLATION property={self.pid} replay={path}')
                print(f'  {key}: {what}')
            return EXIT_VIOLATION
        if self.inconclusive:
            for w in self.inconclusive:
                print(f'INCONCLUSIVE property={self.pid}: {w}')
            return EXIT_INCONCLUSIVE
        print(f'OK property={self.pid} tier={self.tier} queries={nq} verdicts={verd} wall={wall:.1f}s')
        return EXIT_OK


def harness_crate(name):
    """directory of a harness crate (kani / replay / replay-gen) whose path dependencies point at REPO.
    For the real /repo this is the committed crate itself; for a scratch tree (mutation testing) a rewritten copy."""
    src = os.path.join(VERIF, name)
    if REPO == '/repo':
        return src
    import shutil, fcntl
    dst = os.path.join(BUILD, 'crate-' + name)
    # one rewritten copy per check run (forked workers of the run share it; the lock serialises the first copy)
    run_id = os.environ.setdefault('VERIF_RUN_ID', f'{os.getpid()}-{int(time.time())}')
    marker = os.path.join(dst, '.verif-run-' + run_id)
    os.makedirs(BUILD, exist_ok=True)
    def copy():
        if os.path.exists(marker):
            return
        shutil.rmtree(dst, ignore_errors=True)
        shutil.copytree(src, dst, ignore=shutil.ignore_patterns('target', 'Cargo.lock'))
        _rewrite_paths(dst)
        open(marker, 'w').close()
    if _NESTED[0]:
        copy()          # called from _rewrite_paths of an outer crate: the lock is already held
        return dst
    with open(os.path.join(BUILD, '.crate-copy.lock'), 'w') as lk:
        fcntl.flock(lk, fcntl.LOCK_EX)
        _NESTED[0] += 1
        try:
            copy()
        finally:
            _NESTED[0] -= 1
    return dst


_NESTED = [0]


def _rewrite_paths(dst):
    for root, _, files in os.walk(dst):
        for f in files:
            if f in ('Cargo.toml', 'build.rs'):
                p = os.path.join(root, f)
                t = open(p).read().replace('"/repo/', '"' + REPO.rstrip('/') + '/')
                import re as _re
                for sub in set(_re.findall(r'"/verif/(gen-crates/[\w-]+)"', t)):
                    t = t.replace('"/verif/' + sub + '"', '"' + harness_crate(sub) + '"')
                open(p, 'w').write(t)

