"""Engine K: run Kani proof harnesses of /verif/kani against /repo's current tree (DESIGN.md §3.2)."""
import os, re, subprocess, time, shutil, json, concurrent.futures as cf
from .common import VERIF, BUILD, REPO, env_offline, Inconclusive

from .common import harness_crate
_KD = {}


def kdir(crate='kani'):
    if crate not in _KD:
        _KD[crate] = harness_crate(crate)
    return _KD[crate]


def _prepare(crate='kani'):
    # the lock file follows /repo's (path deps are resolved against it)
    shutil.copyfile(os.path.join(REPO, 'Cargo.lock'), os.path.join(kdir(crate), 'Cargo.lock'))


def parse_output(text):
    """-> {harness: dict(status, time_s, covers_sat, covers_total, failed_checks)}"""
    res = {}
    cur = None
    for line in text.split('\n'):
        m = re.match(r'Checking harness (\S+?)\.\.\.', line)
        if m:
            cur = m.group(1).split('::')[-1]
            res[cur] = dict(status='UNKNOWN', time_s=None, covers_sat=None, covers_total=None, failed=[])
            continue
        if cur is None:
            continue
        m = re.search(r'\*\* (\d+) of (\d+) cover properties satisfied', line)
        if m:
            res[cur]['covers_sat'], res[cur]['covers_total'] = int(m.group(1)), int(m.group(2))
        m = re.search(r'\*\* (\d+) of (\d+) failed', line)
        if m:
            res[cur]['n_failed'] = int(m.group(1))
        m = re.match(r'Failed Checks: (.*)', line)
        if m:
            res[cur]['failed'].append(m.group(1)[:300])
        m = re.match(r'VERIFICATION:- (\w+)', line)
        if m:
            res[cur]['status'] = m.group(1)
        m = re.match(r'Verification Time: ([\d.]+)s', line)
        if m:
            res[cur]['time_s'] = float(m.group(1))
        if 'Status: ERROR' in line or 'CBMC failed' in line or 'out of memory' in line.lower():
            res[cur]['status'] = 'ERROR'
    return res


def run_group(harnesses, tag, timeout_s=600, mem_gb=12, extra_args=(), crate='kani'):
    """one `cargo kani` invocation (own target dir) running the given harnesses sequentially."""
    _prepare(crate)
    tdir = os.path.join(BUILD, 'kani-' + tag)
    cmd = ['cargo', 'kani', '--target-dir', tdir, '--output-format', 'terse']
    for h in harnesses:
        cmd += ['--harness', h]
    cmd += list(extra_args)
    shell = f'ulimit -v {mem_gb * 1024 * 1024}; exec ' + ' '.join(cmd)
    t0 = time.time()
    log = os.path.join(BUILD, f'kani-{tag}.log')
    with open(log, 'w') as lf:
        try:
            p = subprocess.run(['bash', '-c', shell], cwd=kdir(crate), env=env_offline(), stdout=lf, stderr=subprocess.STDOUT,
                               timeout=timeout_s)
            rc = p.returncode
        except subprocess.TimeoutExpired:
            rc = 'timeout'
            subprocess.run(['pkill', '-f', tdir])
    text = open(log, errors='replace').read()
    res = parse_output(text)
    for h in harnesses:
        if h not in res:
            res[h] = dict(status='TIMEOUT' if rc == 'timeout' else 'NOT_RUN', time_s=None, covers_sat=None, covers_total=None, failed=[])
        elif res[h]['status'] == 'UNKNOWN':
            res[h]['status'] = 'TIMEOUT' if rc == 'timeout' else 'ERROR'
    if 'error: could not compile' in text or 'error[E' in text:
        raise Inconclusive('Kani harness crate does not compile against the current tree (see %s): %s' % (
            log, [l for l in text.split('\n') if l.startswith('error')][:3]))
    return res, time.time() - t0, log


def run_parallel(groups, timeout_s=600, mem_gb=12, workers=8, crate='kani'):
    """groups: {tag: [harness,...]} -> merged results"""
    out = {}
    _prepare(crate)
    with cf.ThreadPoolExecutor(max_workers=workers) as ex:
        futs = {ex.submit(run_group, hs, tag, timeout_s, mem_gb, (), crate): tag for tag, hs in groups.items()}
        for f in cf.as_completed(futs):
            res, wall, log = f.result()
            for h, r in res.items():
                r['group'] = futs[f]; r['log'] = log
                out[h] = r
    return out


def record(rep, results, expect_covers=True):
    """Put Kani results into a Report. FAILED -> candidate violation (caller replays); others inconclusive."""
    failed = []
    for h, r in sorted(results.items()):
        rep.kani.append(dict(harness=h, status=r['status'], time_s=r['time_s'], covers=[r['covers_sat'], r['covers_total']]))
        rep.query('kani:' + h, {'SUCCESSFUL': 'unsat', 'FAILED': 'sat'}.get(r['status'], 'unknown'), r['time_s'] or 0.0, engine='K',
                  covers=[r['covers_sat'], r['covers_total']])
        rep.states += 1
        if r['status'] == 'SUCCESSFUL':
            if r['covers_total'] and r['covers_sat'] != r['covers_total']:
                rep.inconc(f'Kani harness {h}: vacuity witness unsatisfied ({r["covers_sat"]}/{r["covers_total"]} covers)')
        elif r['status'] == 'FAILED':
            # a failed cover-only run is reported by kani as SUCCESSFUL; FAILED means an assertion/unwind failure
            failed.append((h, r))
        else:
            rep.inconc(f'Kani harness {h}: {r["status"]} (log {r.get("log")})')
    return failed


def playback(harness, timeout_s=900, crate='kani'):
    """Re-run a failed harness with concrete playback in a scratch copy of the harness crate and execute the generated unit
    tests natively (dev and release). -> (reproduced: bool|None, detail).
    The tests are taken from --concrete-playback=print (in-place insertion breaks for harnesses defined through a macro), only
    those generated for a failed check (not for cover statements) are kept, and they are appended as a child module of the module
    that defines the harness."""
    scratch = os.path.join(BUILD, 'playback-' + harness)
    shutil.rmtree(scratch, ignore_errors=True)
    shutil.copytree(kdir(crate), scratch, ignore=shutil.ignore_patterns('target'))
    cmd = ['cargo', 'kani', '--harness', harness, '-Z', 'concrete-playback', '--concrete-playback=print', '--output-format', 'terse']
    try:
        p = subprocess.run(cmd, cwd=scratch, env=env_offline(), capture_output=True, text=True, timeout=timeout_s)
    except subprocess.TimeoutExpired:
        return None, 'concrete playback generation timed out'
    blocks = re.findall(r"```\n(.*?)```", p.stdout, re.S)
    tests = []
    for blk in blocks:
        m = re.search(r'Check for `(\w+)`', blk)
        n = re.search(r'fn (kani_concrete_playback_\w+)', blk)
        if n and (m is None or m.group(1) != 'cover'):
            tests.append((n.group(1), blk))
    if not tests:
        return None, 'no concrete playback test generated for a failed check: ' + p.stdout[-400:]
    # the module file that defines (or instantiates through a macro) the harness
    srcdir = os.path.join(scratch, 'src')
    home = None
    for f in sorted(os.listdir(srcdir)):
        if f.endswith('.rs') and f not in ('lib.rs',) and re.search(r'\b' + re.escape(harness) + r'\b', open(os.path.join(srcdir, f)).read()):
            home = os.path.join(srcdir, f)
            break
    if home is None:
        return None, 'harness source file not found'
    with open(home, 'a') as f:
        f.write('\n#[cfg(test)]\nmod verif_playback {\n    use super::*;\n' + '\n'.join(blk for _, blk in tests) + '\n}\n')
    detail = []
    repro = True
    for prof in ([], ['--release']):
        any_fail = False
        for tname, _ in tests[:3]:
            try:
                q = subprocess.run(['cargo', 'kani', 'playback', '-Z', 'concrete-playback'] + prof + ['--', tname],
                                   cwd=scratch, env=env_offline(), capture_output=True, text=True, timeout=timeout_s)
            except subprocess.TimeoutExpired:
                return None, 'playback run timed out'
            if 'could not compile' in q.stderr:
                return None, 'playback tests do not compile: ' + q.stderr[-400:]
            any_fail = any_fail or ('test result: FAILED' in q.stdout) or ('panicked at' in q.stdout + q.stderr)
        detail.append(('release' if prof else 'dev', 'reproduced' if any_fail else 'NOT reproduced'))
        # dev models what Kani analysed; release may legitimately differ on overflow checks
        if not prof and not any_fail:
            repro = False
    witness = tests[0][1].strip()[:1500]
    shutil.rmtree(scratch, ignore_errors=True)
    return repro, dict(test=tests[0][0], profiles=detail, witness=witness)


def handle_failures(rep, failed, pid, crate='kani'):
    reproduced = 0
    for h, r in failed:
        if any('unwinding assertion' in f for f in r['failed']):
            rep.inconc(f'Kani harness {h}: unwinding assertion failed (bound too small): {r["failed"][:2]}')
            continue
        if reproduced >= 2:
            # two counterexamples already replayed natively: further failing harnesses are listed, not replayed (each playback is a
            # fresh Kani run of several minutes); they are not reported as violations of their own
            rep.extra.setdefault('kani_failed_not_replayed', []).append(h)
            continue
        ok, detail = playback(h, crate=crate)
        reproduced += 1 if ok else 0
        if ok is None:
            rep.inconc(f'Kani harness {h} FAILED but could not be replayed: {detail}')
        elif ok:
            rep.replayed += 1
            rep.violation(f'{pid}:kani:{h}', f'Kani harness {h} failed: {r["failed"][:3]}; concrete playback reproduces natively', detail)
        else:
            rep.inconc(f'Kani harness {h} FAILED but the counterexample does not reproduce natively: {detail}')
