"""Fork-parallel execution of independent configurations of one check (each child owns its z3 context and Report;
the parent merges the reports in job order, so evidence and exit status do not depend on scheduling)."""
import os, pickle, sys, time, traceback
from .common import Report

FIELDS = ('queries', 'states', 'transitions', 'replayed', 'violations', 'known', 'inconclusive', 'functions_encoded', 'models_used',
          'assumptions', 'outside', 'solver_time', 'kani')


def nproc(default=12):
    try:
        return max(1, int(os.environ.get('VERIF_JOBS', default)))
    except ValueError:
        return default


def run_parallel(rep, jobs, worker, procs=None):
    """worker(sub_report, job) runs in a forked child; returns the list of per-job `extra` dicts"""
    procs = procs or nproc()
    jobs = list(jobs)
    if procs <= 1 or len(jobs) <= 1:
        extras = []
        for job in jobs:
            sub = Report(rep.pid, rep.tier)
            sub.vprefix = rep.pid
            worker(sub, job)
            merge(rep, sub.__dict__)
            extras.append(sub.extra)
        return extras
    results, active, nxt = {}, {}, 0
    sys.stdout.flush()
    while nxt < len(jobs) or active:
        while nxt < len(jobs) and len(active) < procs:
            r, w = os.pipe()
            pid = os.fork()
            if pid == 0:
                os.close(r)
                sub = Report(rep.pid, rep.tier)
                sub.vprefix = f'{rep.pid}-j{nxt}'
                try:
                    worker(sub, jobs[nxt])
                except BaseException as e:          # a crashed configuration is inconclusive, never a pass
                    sub.inconc(f'job {nxt} ({jobs[nxt]!r:.80}): machinery error: {e!r:.300}')
                    traceback.print_exc()
                data = {k: getattr(sub, k) for k in FIELDS}
                data['extra'] = sub.extra
                data['bounds'] = sub.bounds
                with os.fdopen(w, 'wb') as f:
                    pickle.dump(data, f)
                sys.stdout.flush()
                os._exit(0)
            os.close(w)
            active[pid] = (nxt, r)
            nxt += 1
        pid, status = os.wait()
        if pid not in active:
            continue
        k, r = active.pop(pid)
        with os.fdopen(r, 'rb') as f:
            blob = f.read()
        if status != 0 or not blob:
            results[k] = dict(inconclusive=[f'job {k} ({jobs[k]!r:.80}) died with status {status}'])
        else:
            results[k] = pickle.loads(blob)
    extras = []
    for k in range(len(jobs)):
        merge(rep, results[k])
        extras.append(results[k].get('extra', {}))
    return extras


def merge(rep, d):
    for q in d.get('queries', []):
        rep.queries.append(q)
        if len(rep.samples) < 40:
            rep.samples.append(q)
    for k in ('states', 'transitions', 'replayed', 'solver_time'):
        setattr(rep, k, getattr(rep, k) + d.get(k, 0))
    for key, what, path in d.get('violations', []):
        rep.violations.append((key, what, path))
    for key, what in d.get('known', []):
        if not any(k == key for k, _ in rep.known):
            rep.known.append((key, what))
    for k in ('inconclusive', 'functions_encoded', 'models_used', 'kani'):
        getattr(rep, k).extend(d.get(k, []))
    for k in ('assumptions', 'outside'):
        for x in d.get(k, []):
            if x not in getattr(rep, k):
                getattr(rep, k).append(x)
    for k, v in d.get('bounds', {}).items():
        rep.bounds.setdefault(k, v)
    for k, v in d.get('extra', {}).items():
        if isinstance(v, (int, float)) and isinstance(rep.extra.get(k, 0), (int, float)):
            rep.extra[k] = rep.extra.get(k, 0) + v
        else:
            rep.extra.setdefault(k, v)
