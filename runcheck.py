#!/usr/bin/env python3-vt
"""dev helper: run one function of a check module with full traceback"""
import sys, importlib, traceback; sys.path.insert(0,'/verif'); sys.setrecursionlimit(1000000)
import threading; threading.stack_size(512*1024*1024)
from vlib.common import Report
def main():
    mod=importlib.import_module('checks.'+sys.argv[1]); fn=getattr(mod, sys.argv[2]); tier=sys.argv[3] if len(sys.argv)>3 else 'quick'
    rep=Report(sys.argv[1].upper()[:3],tier)
    try: fn(rep,tier)
    except Exception as e: traceback.print_exc(); rep.inconc('exception: %r' % (e,))
    print('rc',rep.finish())
t=threading.Thread(target=main); t.start(); t.join()
